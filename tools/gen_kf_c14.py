#!/usr/bin/env python3
"""Regenerates known_findings.d/C14.json: the key lists are produced by rule from the program families of py/checks/c14.py
(both tiers), so that a family added to the check is covered without hand-editing.  Usage: python3 tools/gen_kf_c14.py"""
import json
import os
import sys

HERE = os.path.dirname(os.path.dirname(os.path.abspath(__file__)))
sys.path.insert(0, os.path.join(HERE, "py"))
from checks import c14  # noqa: E402

V = ["3.7", "3.8", "3.9", "3.10", "3.11"]
fams = sorted({f for tier in ("quick", "thorough") for f, s, vs in c14.programs(tier)})
withs = [f for f in fams if f.startswith("with:")] + ["construct:with-exception", "construct:with-user-cm", "construct:with-open"]
long_body = [f for f in withs if ":long-" in f]
stack = ("negative-stack-depth", "stacksize-too-small")
F = []


def finding(name, keys, witness, what):
    F.append({"property": "C14", "name": name, "keys": sorted(set(keys)), "witness": witness, "what": what})


finding("code objects built from location-less syntax get line 0 (the builtin `unsound` module, a body that is only `__file__`)",
        [f"line-outside-source@inlined:{v}:imports:{m}" for v in V for m in ("unsound", "exception", "unit", "import")]
        + [f"line-outside-source@nested:{v}:corpus:tests/should_ok/import.er" for v in V],
        "`unsound = import \"unsound\"` (3.9): code objects %v_codegen_1 and perform have co_firstlineno 0 and an empty lnotab; tests/should_ok/import.er `.func() = __file__`: code object func has co_firstlineno 0",
        "emit_block takes the first line from the first expression of the block and falls back to 0: the `unsound` pseudo-module is built from Token::DUMMY syntax (also when it comes in through std `exception` / `unit`), "
        "and `__file__` is replaced by a literal without a location. A traceback through these frames shows line 0. No patch proposed: which line to give is a design choice")
finding("with! for 3.9/3.10: the exception handler path is wrong (C13 finding 3, plus a handler jump that is not re-targeted after EXTENDED_ARG insertion)",
        [f"{k}@{w}:{v}:{c}" for k in stack for w in ("module", "nested") for v in ("3.9", "3.10") for c in withs],
        "with:returns:for:pad0 (3.9): after `WITH_EXCEPT_START; POP_JUMP_IF_TRUE` the suppressing path does POP_TOP; POP_EXCEPT and rejoins the loop 3 values deeper each time (depth 50 > co_stacksize 49); "
        "with:returns:toplevel:pad40 (3.9): the handler lies beyond offset 255, edit_code inserts three EXTENDED_ARG before POP_JUMP_IF_TRUE and the target (680) is the EXTENDED_ARG itself: the instruction jumps to itself popping a value each time (depth -1)",
        "emit_with_instr_309/310: one POP_TOP where CPython emits three (+POP_EXCEPT+POP_TOP) on the path where __exit__ returns true, and `edit_code(idx_pop_jump_if_true + 1, self.lasti())` computes the target before the "
        "insertion shifts it. The abstract interpreter explores the suppressing path of every with!, so every with! program on 3.9/3.10 is in this class; which stack clause fires depends on the layout. Same code as C13's finding 3; no small repair")
finding("with! for 3.7/3.8 whose body is longer than 255 bytes: EXTENDED_ARG inserted before SETUP_WITH (C13 finding 2)",
        [f"{k}@module:{v}:{c}" for k in stack for v in ("3.7", "3.8") for c in long_body],
        "with:returns:long-if-in-body:pad0 (3.8): WITH_CLEANUP_START at 2012 is reached with one value on the stack; with:returns:long-for-in-body:pad0 (3.7): CALL_FUNCTION at 182 underflows",
        "edit_code inserts EXTENDED_ARG before SETUP_WITH after the body was emitted; absolute jumps inside the body are not shifted and land two bytes early. Same as C13's finding 2")
finding("`<<` / `>>`: a FeatureError is printed but a .pyc with a placeholder opcode is still written",
        [f"invalid-opcode-or-argument@module:{v}:c14:{c}" for v in V for c in ("shift-left", "shift-right")],
        "x = 1 / y = x << 2 / print! y : `erg file.er` prints `FeatureError: this feature(<<) is not implemented yet` and then dies with Segmentation fault (3.11 executes opcode 0 = CACHE as an instruction); "
        "`erg compile` exits 0; under 3.7-3.10 the .pyc holds opcode 255 (`SystemError: unknown opcode`)",
        "emit_binop_instr_307/309/311 report the missing feature with write_to_stderr() and return NOT_IMPLEMENTED (255; in 3.11 the BINARY_OP slot becomes opcode 0) instead of failing the compilation; "
        "the repair is to make the lowering reject the operator (an error, not a warning printed by the generator), which is outside the generator")
finding("LOAD_METHOD's second value is not counted in co_stacksize (3.7-3.10)",
        [f"stacksize-too-small@nested:{v}:{c}" for v in ("3.7", "3.8", "3.9", "3.10") for c in ("c14:method-call-with-closure-arg", "corpus:tests/should_ok/mutizable.er")],
        "set_plus1! x = x.update!((_: Nat) -> x + 1)  (3.8): LOAD_DEREF x; LOAD_METHOD update; LOAD_CLOSURE; BUILD_TUPLE 1; LOAD_CONST code; LOAD_CONST name = depth 5, co_stacksize 4",
        "emit_load_method_instr only calls stack_inc for 3.11 (where it stands for PUSH_NULL); up to 3.10 LOAD_METHOD replaces the receiver by (method, self) and that extra value is never counted. Hidden by over-counts elsewhere unless the "
        "call's arguments are the deepest point of the function. Was masked by the closure-tuple deficit (fixed f4678b3b) in the same witness. The repair touches the call accounting (CALL_METHOD pops one more than is counted): not trivial, not proposed now")
FIXED = [
    "fixed: property=C14 ac04702b 3.10/3.11 line tables were written in the 3.9 lnotab format (keys line-table-does-not-cover-code:3.10:* and :3.11:*): `x = 1 / y = 2 / z = 3 / print! x, y / print! int(\"zz\")` compiled for 3.10 or 3.11 gave a traceback at `line -1`",
    "fixed: property=C14 ac04702b lnotab encoder wrote a lone byte for two statements at one address and mis-split line increments > 127 (keys line-outside-source@module:<v>:{c14:line-far-apart, corpus:examples/patch.er, corpus:examples/use_unit.er, "
    "corpus:tests/should_ok/long.er, corpus:tests/should_ok/mut_list.er}, line-outside-source@nested:<v>:c14:many-blank-lines-in-function): examples/patch.er (21 lines) mapped instructions to lines 27, 43, 55",
    "fixed: property=C14 f4678b3b co_stacksize did not count the closure tuple (keys stacksize-too-small@nested:{3.7..3.10}:{c14:closure-by-lambda, c14:closure-by-lambda-2-cells, c14:closure-only-body, corpus:examples/quantified.er, "
    "corpus:tests/should_ok/mutizable.er}): `mk c: Nat = (x: Nat) -> c + x` reached depth 3 with co_stacksize 2",
    "fixed: property=C14 d00d814b `if` without else jumped into `LOAD_CONST None` when None's index needs EXTENDED_ARG (keys jump-into-extended-instruction@module:<v>:{long-if:300/1000/5000, if-value-after-consts:300/1000}): "
    "`x = if t, do 7` after 300 distinct constants printed 1045",
    "fixed: property=C14 e6956cfc a match arm ending in a binding left the subject on the stack (keys stacksize-too-small@module:<v>:{c14:match-list-wildcard-in-for, corpus:tests/should_ok/fizzbuzz.er}): "
    "tests/should_ok/fizzbuzz.er died with `TypeError: 'List' object is not iterable` in its 3rd iteration",
]
out = os.path.join(HERE, "known_findings.d", "C14.json")
with open(out, "w") as f:
    json.dump({"findings": F, "fixed": FIXED}, f, indent=1, ensure_ascii=False)
print(f"{out}: {len(F)} findings, {sum(len(x['keys']) for x in F)} keys, {len(FIXED)} fixed")
