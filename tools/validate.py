#!/usr/bin/env python3
"""Validates MANIFEST.json and every evidence file against the schemas (run with python3-vt)."""
import json, sys, glob
import jsonschema
ok = True
m = json.load(open('/verif/MANIFEST.json'))
jsonschema.validate(m, json.load(open('/root/.vp/MANIFEST.schema.json')))
es = json.load(open('/root/.vp/EVIDENCE.schema.json'))
for c in m['checks']:
    try:
        jsonschema.validate(json.load(open(c['evidence_file'])), es)
    except Exception as e:
        ok = False
        print('BAD', c['evidence_file'], str(e)[:300])
ids = {json.loads(l)['id'] for l in open('/verif/properties.jsonl')}
claimed = {c['property_id'] for c in m['checks']}
na = {n['property_id'] for n in m.get('not_applicable', [])}
assert claimed | na == ids and not (claimed & na), (ids - claimed - na, claimed & na)
print('valid' if ok else 'INVALID', len(claimed), 'claimed', len(na), 'n/a')
sys.exit(0 if ok else 1)
