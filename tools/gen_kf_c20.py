#!/usr/bin/env python3
"""Writes known_findings.d/C20.json from the symptom table of evidence/C20.json (run ./check C20 first; run it
after the quick AND after the thorough tier: keys already listed are kept).  Keys are <symptom>:<graph class>.
Only the two root causes described in DESIGN §4 C20 are accepted:
  A  a cycle of >= 2 modules through the ENTRY module: rejected(...) or wrong-run(ModuleNotFoundError)
  B  a module other than the entry imports ITSELF and a name is read through that import at run time:
     wrong-run(AttributeError)  (the self-import is bound to the running script's module object)
  C  a cycle below the entry that is longer than 2 modules, or that is entered at more than one of its
     members: rejected(...) -- and for the multi-entry 2-cycle the verdict depends on the SCHEDULE
     (schedule-dependent-result): which member the analysis threads reach first decides whether the other
     member's names are visible
Anything else in the evidence is printed and NOT listed (it must be triaged by hand).   cwd = /verif"""
import json
ev = json.load(open("evidence/C20.json"))
entry, selfimp, below, other = [], [], [], []
try:
    old = json.load(open("known_findings.d/C20.json"))["findings"]
    entry += old[0]["keys"]
    selfimp += old[1]["keys"]
    below += old[2]["keys"]
except Exception:
    pass
for cl, info in sorted(ev["coverage"]["graph_classes"].items()):
    for sym in info["symptoms"]:
        key = f"{sym}:{cl}"
        if "entry-on-" in cl and (sym.startswith("rejected(") or sym == "wrong-run(ModuleNotFoundError)"):
            entry.append(key)
        elif "-cycle-entered-" in cl and not ("2-cycle-entered-at-1-from-1" in cl) and (sym.startswith("rejected(") or sym == "schedule-dependent-result"):
            below.append(key)
        elif "+self-import" in cl or cl.endswith(":self-import"):
            if sym == "wrong-run(AttributeError)":
                selfimp.append(key)
            else:
                other.append(key)
        else:
            other.append(key)
kf = {"findings": [
    {"property": "C20", "name": "import-cycle-through-the-entry-module-is-rejected-or-dies-at-run-time", "keys": sorted(set(entry)),
     "witness": {"main.er": 'a_ = import "a"\nprint! "init main"\nprint! "main sees a", a_.fv()\n', "a.er": 'main_ = import "main"\nprint! "init a"\n.fv(): Int = 1\n'},
     "what": "a cycle of two or more modules through the entry module is accepted and the program dies with ModuleNotFoundError: No module named 'main' (the entry module is imported by name at run time), or, for some 3-cycles, is rejected because the inlined member's names are not visible"},
    {"property": "C20", "name": "self-import-of-an-imported-module-is-bound-to-the-running-script", "keys": sorted(set(selfimp)),
     "witness": {"main.er": 'a_ = import "a"\nprint! "init main"\nprint! "main via a sees a", a_.f_a()\n', "a.er": 'a_ = import "a"\nprint! "init a"\n.fv(): Int = 1\n.f_a(): Int = a_.fv()\n'},
     "what": "a module other than the entry that imports itself is accepted, but at run time the self-import names the running script's module object: reading a public name through it raises AttributeError: module '__main__' has no attribute 'fv'"},
    {"property": "C20", "name": "longer-or-multi-entry-cycle-below-the-entry-is-rejected-depending-on-the-schedule", "keys": sorted(set(below)),
     "witness": {"graph": "main>a,main>c,a>b,b>a,c>b", "schedule_dependent": "default schedule: rejected with `Module(\"b.er\") object has no attribute fv`; the schedule that differs from it in its last free choice (which analysis thread is resumed at a thread end): accepted"},
     "what": "a 2-cycle below the entry whose two members are each imported from outside the cycle, and cycles of three or more modules below the entry, are rejected (`Module(\"b.er\") object has no attribute fv`); for the multi-entry 2-cycle the same project is ACCEPTED under another schedule of the analysis threads, i.e. the compile result depends on thread timing (also a C19 matter; found by the bound-0 schedule exploration)"},
], "fixed": []}
json.dump(kf, open("known_findings.d/C20.json", "w"), indent=1)
print(len(set(entry)), "+", len(set(selfimp)), "+", len(set(below)), "keys written;", "NOT listed (triage by hand):", other)
