#!/usr/bin/env python3
"""Writes known_findings.d/C20.json from the symptom table of evidence/C20.json (run ./check C20 first).
The keys are <symptom>:<graph class>; only the two root causes described in DESIGN §4 C20 are accepted:
symptoms rejected(...) and wrong-run(ModuleNotFoundError) on graphs that have a cycle of >= 2 modules.
Anything else in the evidence is printed and NOT listed (it must be triaged by hand).   cwd = /verif"""
import json
ev = json.load(open("evidence/C20.json"))
non_entry, entry, other = [], [], []
# keys already listed (e.g. from the other tier's run) are kept
try:
    old = json.load(open("known_findings.d/C20.json"))["findings"]
    non_entry += old[0]["keys"]
    entry += old[1]["keys"]
except Exception:
    pass
for cl, info in sorted(ev["coverage"]["graph_classes"].items()):
    for sym in info["symptoms"]:
        key = f"{sym}:{cl}"
        has_big_cycle = "-cycle" in cl
        if has_big_cycle and (sym.startswith("rejected(") or sym == "wrong-run(ModuleNotFoundError)"):
            (entry if "entry-on-" in cl else non_entry).append(key)
        else:
            other.append(key)
kf = {"findings": [
    {"property": "C20", "name": "import-cycle-not-containing-the-entry-module-is-rejected", "keys": sorted(set(non_entry)),
     "witness": {"main.er": 'a_ = import "a"\nprint! "init main"\nprint! "main sees a", a_.v\n', "a.er": 'b_ = import "b"\nprint! "init a"\n.v: Int = 1\n.f_b() = b_.v\n',
                 "b.er": 'a_ = import "a"\nprint! "init b"\n.v: Int = 2\n.f_a() = a_.v\n'},
     "what": "a cycle of two or more modules below the entry module is rejected: the public names of the inlined cycle member are not visible (`Module(\"a.er\") object has no attribute v`)"},
    {"property": "C20", "name": "import-cycle-through-the-entry-module-is-rejected-or-dies-at-run-time", "keys": sorted(set(entry)),
     "witness": {"main.er": 'a_ = import "a"\nprint! "init main"\nprint! "main sees a", a_.v\n', "a.er": 'main_ = import "main"\nprint! "init a"\n.v: Int = 1\n'},
     "what": "a cycle through the entry module is either rejected (attribute of the imported module not visible / accessed before definition) or accepted and the program dies with ModuleNotFoundError: No module named 'main'"},
], "fixed": []}
json.dump(kf, open("known_findings.d/C20.json", "w"), indent=1)
print(len(non_entry), "+", len(entry), "keys written;", "NOT listed (triage by hand):", other)
