#!/usr/bin/env python3
"""Regenerates known_findings.d/C34.json from key dumps of the check (C34_DUMP_KEYS=f ./check C34 --tier ...).
Every dumped key must be claimed by exactly one of the root causes below (by the class of the INPUT it names);
a key nobody claims stops the script: it is a new violation class and has to be triaged by hand first.
Usage: python3 tools/gen_kf_c34.py dump1.json [dump2.json ...]   (cwd = /verif)"""
import json
import os
import re
import sys

HERE = os.path.dirname(os.path.dirname(os.path.abspath(__file__)))

ADD = r"(add-lit|add-self)"


def ops_of(key):
    """the operation list of a list-chain / list-nested / list-index / index key"""
    m = re.search(r":(?:nat3|empty|str2|rep2):([a-z0-9.*\-]+)", key)
    return m.group(1).split(".") if m else []


def cause(key):
    if re.match(r"^value:unary:not:", key):
        return "not-keeps-the-operand-type"
    if re.search(r":(sum|prod)$", key) and re.match(r"^(value|class):list-", key):
        return "sum-prod-typed-as-element"
    if key.startswith("index-accepted-out-of-range:below-minus-length:"):
        return "negative-index-accepted"
    ops = ops_of(key)
    if any(re.fullmatch(ADD, o) for o in ops):
        kinds = key.split(":", 1)[0]
        if key.startswith("index-accepted-out-of-range:") or kinds in ("length", "element", "element+length", "value", "class"):
            return "list-add-takes-both-operands-from-the-left"
    return None


FINDINGS = {
    "list-add-takes-both-operands-from-the-left": {
        "witness": "l = [1, 2, 3]\nl2 = l.push(4)\nx = l2 + [5]\ny = x[6]\nprint! y\n# erg --mode typecheck: ::l2(: List({3, 1, 4, 2}, 4))  ::x(: List({3, 1, 4, 2}, 8))  ::y(: {3, 1, 4, 2});  erg f.er: IndexError: list index out of range",
        "what": "`a + b` on lists whose left operand is not a list literal is typed `List(T_a, N_a + N_a)`: the `Add(R)` bound of the operator is solved with the LEFT operand's own type, "
                "so the right operand contributes neither its length nor its element type (`[] + [4]`: List(Never, 0); `l.push(4) + [5]`: length 8, element 5 not in {1, 2, 3, 4}; "
                "`l.reversed() + [4]`: element type {1, 2, 3}). Indexes up to 2*N_a - 1 are accepted and raise IndexError; elements read from the list get the left element type. "
                "No small repair: the defect is in the resolution of the operator's trait bound (inquire.rs/unify.rs), not in the List declarations (`concat` with the same signature is typed correctly).",
    },
    "sum-prod-typed-as-element": {
        "witness": "l = [1, 2, 3]\ns = l.sum()\np = l.prod()\nprint! s, p\n# typecheck: ::s(: {1, 2, 3})  ::p(: {1, 2, 3});  run: 6 6",
        "what": "`List(T, _).sum: (start := T) -> T` / `.prod` are declared to return the element type; for a list whose element type is an enum/singleton type ({1, 2, 3}, {0}) "
                "the sum or product is not an element (6 not in {1, 2, 3}; `[].sum()`: 0 typed {1}; `([0; 2] * 0).prod()`: 1 typed {0}). No small repair (needs a widening of T to its class in the declaration language).",
    },
    "not-keeps-the-operand-type": {
        "witness": "nb = not True\nn0 = not 0\nprint! nb, n0\n# typecheck: ::nb(: {True})  ::n0(: {0});  run: False 1",
        "what": "`not: |B <: Bool|(b: B) -> B` returns the operand's own (singleton) type: `not True` is typed {True} and holds False, `not 0` is typed {0} and holds 1. "
                "The signature was chosen so that `not(b: Bool!)` stays `Bool!`; returning Bool would change that, so no repair is proposed.",
    },
    "negative-index-accepted": {
        "witness": "l = [1, 2, 3]\nm = l[-5]\nprint! m\n# erg check: accepted (typecheck: ::m(: {1, 2, 3}));  erg f.er: IndexError: list index out of range",
        "what": "the index parameter of List.__getitem__ is `{I: Nat | I <= N - 1}`; a negative literal is accepted because only the predicate `I <= N - 1` is evaluated for a constant "
                "argument, not the `Nat` base of the refinement. -1..-N are valid at run time (Python semantics), anything below -N raises IndexError. "
                "No small repair: the same evaluation path decides every `{I: T | p}` parameter against a constant.",
    },
}


ATOMS = ("nat3", "empty", "str2", "rep2")
OPS = ("push", "push-neg", "add-lit", "add-self", "concat", "mul2", "mul0", "insert", "remove-at", "remove-all", "reversed", "from", "dedup", "slice", "map-list")


def structural_keys():
    """Keys of the chains longer than the exact part of a key (`*.Y.Z`, terminals `*.Z`): the class of the input is
    'some longer chain whose last operations are Y, Z'. They are listed by rule (every class the root cause covers),
    not from a run: depth-3 chains were only run on a slice (see notes/reports/C34.md)."""
    out = set()
    for atom in ATOMS:
        for y in OPS:
            for z in OPS:
                if y not in ("add-lit", "add-self") and z not in ("add-lit", "add-self"):
                    continue
                oc = f"*.{y}.{z}"
                for form in ("list-chain", "list-nested"):
                    for r in ("length", "element", "element+length"):
                        out.add(f"{r}:{form}:{atom}:{oc}")
                for r in ("value", "class"):
                    for sign in ("negative", "non-negative"):
                        out.add(f"{r}:list-index:{atom}:{oc}:{sign}")
                for cls in ("equal-length", "above-length"):
                    out.add(f"index-accepted-out-of-range:{cls}:{atom}:{oc}")
        for oc in ["atom"] + list(OPS) + [f"*.{z}" for z in OPS]:
            for t in ("sum", "prod"):
                for r in ("value", "class"):
                    out.add(f"{r}:list-chain:{atom}:{oc}:{t}")
    return out


def main():
    keys = structural_keys()
    for path in sys.argv[1:]:
        keys |= set(json.load(open(path)))
    by = {n: [] for n in FINDINGS}
    orphans = []
    for k in sorted(keys):
        c = cause(k)
        if c is None:
            orphans.append(k)
        else:
            by[c].append(k)
    if orphans:
        print("keys no root cause claims (triage them first):")
        for k in orphans:
            print("  ", k)
        sys.exit(1)
    findings = [{"property": "C34", "name": n, "keys": by[n], "witness": FINDINGS[n]["witness"], "what": FINDINGS[n]["what"]} for n in FINDINGS if by[n]]
    with open(os.path.join(HERE, "known_findings.d", "C34.json"), "w") as f:
        json.dump({"findings": findings, "fixed": []}, f, indent=1, ensure_ascii=False)
    print({n: len(v) for n, v in by.items()})


if __name__ == "__main__":
    main()
