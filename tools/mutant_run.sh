#!/bin/bash
# Runs checks against a seeded change WITHOUT touching /repo or /verif:
#   tools/mutant_run.sh <patch.diff> <out.log> <Cxx> [<Cxx> ...]
# A git worktree of /repo's HEAD gets the patch; a copy of /verif (without .build) is re-pointed at
# it (harness path dependencies, target dirs, VERIF_REPO) and the quick tier of each check runs there.
# Everything is removed afterwards.  Exit status: number of checks that reported a VIOLATION.
set -u
PATCH=$(readlink -f "$1"); OUT=$(readlink -f -m "$2"); shift 2
N=/tmp/mr-$$-$RANDOM
mkdir -p "$N"
cleanup() { git -C /repo worktree remove --force "$N/repo" 2>/dev/null; rm -rf "$N"; }
trap cleanup EXIT
git -C /repo worktree add -q --detach "$N/repo" HEAD || exit 99
if ! git -C "$N/repo" apply "$PATCH" 2>"$N/apply.err"; then echo "PATCH DOES NOT APPLY: $(cat $N/apply.err)" | tee "$OUT"; exit 98; fi
rsync -a --exclude .build --exclude .git --exclude replays --exclude evidence /verif/ "$N/verif/"
mkdir -p "$N/verif/evidence" "$N/verif/replays"
cd "$N/verif"
sed -i "s#\"/repo#\"$N/repo#g" harness/Cargo.toml
[ -f harness/mc_optable/build.rs ] && sed -i "s#\"/repo/#\"$N/repo/#g" harness/mc_optable/build.rs
sed -i "s#/verif/.build#$N/verif/.build#g" harness/.cargo/config.toml harness_seq/.cargo/config.toml harness_seq/mc_seq/Cargo.toml
export VERIF_REPO="$N/repo" CARGO_NET_OFFLINE=true
hits=0
: > "$OUT"
for c in "$@"; do
  t0=$(date +%s)
  timeout 3600 ./check "$c" --tier "${MUTANT_TIER:-quick}" > "$N/$c.log" 2>&1
  rc=$?
  t1=$(date +%s)
  v=$(grep -c '^VIOLATION' "$N/$c.log")
  echo "== $c rc=$rc violations=$v wall=$((t1-t0))s" >> "$OUT"
  grep -E '^VIOLATION|new violation class|MACHINERY' "$N/$c.log" | head -8 | sed "s#$N/verif#/verif#g" >> "$OUT"
  [ "$rc" = "1" ] && hits=$((hits+1))
done
cat "$OUT"
exit $hits
