#!/usr/bin/env python3
"""Prints the markdown table of seeded changes (DESIGN §6) from /verif/seeded/*/meta.json."""
import glob, json, os
rows = []
for m in sorted(glob.glob("/verif/seeded/*/meta.json")):
    j = json.load(open(m))
    name = os.path.basename(os.path.dirname(m))
    res = "; ".join(r.replace("== ", "").split(" wall=")[0] for r in j.get("checks_run", {}).get("result", []))
    first = (j.get("checks_run", {}).get("first_reports") or [""])[0]
    first = first.replace("new violation class ", "")[:110]
    note = j.get("checks_run", {}).get("note", "")
    rows.append((j.get("property"), name, (j.get("summary") or "")[:170].replace("|", "/").replace("\n", " "), (j.get("needs") or "")[:150].replace("|", "/").replace("\n", " "),
                 "caught" if j.get("detected") else "**missed**", res, first.replace("|", "/"), note[:200]))
print("| property | seeded change (`seeded/<dir>`) | what it does | needs | result | checks run (quick tier, exit status) | first report |")
print("|---|---|---|---|---|---|---|")
for r in rows:
    print(f"| {r[0]} | `{r[1]}` | {r[2]} | {r[3]} | {r[4]}{' — ' + r[7] if r[7] else ''} | {r[5]} | {r[6]} |")
