#!/usr/bin/env python3
"""Writes known_findings.d/C29.json from evidence/C29.json (run ./check C29 first; keys already listed are kept).
One root cause is accepted: after didSave the server publishes NO diagnostics for a document whose final text
has some (histories in which a later notification deletes or re-inserts lines after an earlier notification
changed the chunk structure: the diff-based incremental update believes nothing changed).  A history whose
last published diagnostics are wrong in another way is NOT listed.   cwd = /verif"""
import json
ev = json.load(open("evidence/C29.json"))
keys, other = [], []
try:
    keys += json.load(open("known_findings.d/C29.json"))["findings"][0]["keys"]
except Exception:
    pass
for h in ev["coverage"].get("diverging_histories", []):
    (keys if h["published"] == "nothing" and h["fresh"] > 0 else other).append(h["key"])
kf = {"findings": [{"property": "C29", "name": "no-diagnostics-published-after-didSave-although-the-final-text-has-some", "keys": sorted(set(keys)),
       "witness": {"base": 'dep = import "dep"\\na = dep.k\\nb = a + 1\\nc = b + 1\\nprint! c\\n', "history": ["[ins-bad-def@2+ins-def@3] (one notification: insert `g = a + \\"x\\"` at line 2, insert `e = b + 2` at line 3)", "del@3 (delete line 3)", "didSave"],
                   "server_published": [], "fresh_server_publishes": ["g is not used", "the type of `+`::lhs is mismatched"]},
       "what": "for a document that is part of the module graph, some edit histories end with the server having published an EMPTY diagnostics list although the final text has errors/warnings (a fresh server reports them): "
               "the incremental path (quick_check_file / ASTDiff / change_kind in crates/els/diff.rs, diagnostics.rs) updates its cached AST during didChange and then judges at didSave that nothing changed. "
               "Reproduced twice per history with `./check C29 --replay`; no small repair (the single-difference diff is the design of the incremental path)."}], "fixed": []}
json.dump(kf, open("known_findings.d/C29.json", "w"), indent=1)
print(len(set(keys)), "keys written; NOT listed (triage by hand):", other)
