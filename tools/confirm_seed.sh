#!/bin/bash
# Confirms a seeded change delivered by a seeding agent in /tmp/seed/<id>/{repo,out}:
#   tools/confirm_seed.sh <id> [patch.diff|patch2.diff] [demo|demo2] [meta.json|meta2.json]
# with the change: builds, runs the pinned 230-test suite, runs the demonstration (must fail);
# without it (git apply -R): builds, runs the demonstration (must pass).
# Writes /tmp/seed/<id>/out/confirm-<patch>.json.  Does not touch /repo or /verif.
set -u
ID=$1; PATCH=${2:-patch.diff}; DEMO=${3:-demo}; META=${4:-meta.json}
WT=/tmp/seed/$ID/repo; OUT=/tmp/seed/$ID/out
cd "$WT" || exit 9
git checkout -q -- . 2>/dev/null; git clean -fdq -e target -e .ergpath 2>/dev/null
git apply "$OUT/$PATCH" || { echo "patch does not apply"; exit 8; }
mkdir -p .ergpath && rm -rf .ergpath/lib && cp -r crates/erg_compiler/lib .ergpath/lib
export ERG_PATH=$WT/.ergpath CARGO_NET_OFFLINE=true
cargo build --offline -q --workspace 2> "$OUT/build_after.log"; B1=$?
# artefacts damaged by an earlier full disk / interrupted build: clean once and retry
if [ $B1 != 0 ]; then cargo clean -q 2>/dev/null; cargo build --offline -q --workspace 2> "$OUT/build_after.log"; B1=$?; fi
cargo nextest run --workspace --no-fail-fast --tool-config-file pb:/w/lib/nextest.toml --profile pb --test-threads 8 --offline > "$OUT/suite.log" 2>&1
SUMMARY=$(grep -E "Summary" "$OUT/suite.log" | tail -1)
FAILED=$(grep -E "^\s+FAIL" "$OUT/suite.log" | awk '{print $NF}' | grep -E '^[A-Za-z_][A-Za-z0-9_]*$' | sort -u | tr '\n' ' ')
# re-run failed tests alone (the els completion tests are flaky under load)
STILL=""
for t in $(grep -E "^\s+FAIL" "$OUT/suite.log" | awk '{print $NF}' | grep -E '^[A-Za-z_][A-Za-z0-9_]*$' | sort -u); do
  ok=0
  for k in 1 2 3; do
    if cargo nextest run --workspace --tool-config-file pb:/w/lib/nextest.toml --profile pb --offline -E "test(=$t)" > /dev/null 2>&1; then ok=1; break; fi
  done
  [ $ok = 0 ] && STILL="$STILL $t"
done
timeout 1200 bash "$OUT/$DEMO/run.sh" "$WT" > "$OUT/demo_after.log" 2>&1; D1=$?
git apply -R "$OUT/$PATCH"
rm -rf .ergpath/lib && cp -r crates/erg_compiler/lib .ergpath/lib
cargo build --offline -q --workspace 2> "$OUT/build_before.log"; B0=$?
if [ $B0 != 0 ]; then cargo clean -q 2>/dev/null; cargo build --offline -q --workspace 2> "$OUT/build_before.log"; B0=$?; fi
timeout 1200 bash "$OUT/$DEMO/run.sh" "$WT" > "$OUT/demo_before.log" 2>&1; D0=$?
git apply "$OUT/$PATCH"
python3 - <<PY
import json
json.dump({"patch": "$PATCH", "build_with_change_rc": $B1, "suite_summary": """$SUMMARY""".strip(), "suite_failed_first_run": """$FAILED""".split(), "suite_still_failing_when_rerun_alone": """$STILL""".split(),
           "demo_with_change_rc": $D1, "build_without_change_rc": $B0, "demo_without_change_rc": $D0,
           "verdict": "confirmed" if ($B1 == 0 and $B0 == 0 and $D1 != 0 and $D0 == 0 and not """$STILL""".split()) else "NOT confirmed"},
          open("$OUT/confirm-$PATCH.json", "w"), indent=1)
print(open("$OUT/confirm-$PATCH.json").read())
PY
