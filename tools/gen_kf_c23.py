#!/usr/bin/env python3
"""Regenerates known_findings.d/C23.json from the alphabet of py/checks/c23.py and the five root causes
found on the pinned tree (the keys are derived from the INPUT classes each root cause makes fail, not from a run).
Usage: python3 tools/gen_kf_c23.py   (cwd = /verif); compare with a key dump: C23_DUMP_KEYS=f ./check C23"""
import json
import os
import sys

HERE = os.path.dirname(os.path.dirname(os.path.abspath(__file__)))
sys.path.insert(0, os.path.join(HERE, "py"))
from checks import c23  # noqa: E402

PRE = ("prelude: takef(a: List!(Int, _)) = 0, show(a: List(Int, _)) = 0, showall(*a: List(Int, _)) = 0, "
       "C.eat(self, a: List!(Int, _)) = 0, C.mix(self, a: List!(Int, _), b: List(Int, _)) = 0; ")
# uses the checker never looks at (so they can neither be missed-by-a-broken-mover nor carry a spurious error)
UNCHECKED = ("push", "index", "method-get", "take-keyword", "show-keyword")


def legal(names, sc):
    return sc != "function" or all(c23.OP[n].fn for n in names)


def keys():
    movers = [o.name for o in c23.OPS if o.moves]
    users = [o.name for o in c23.OPS]
    exp = {r: set() for r in ("R1", "R2", "R3", "R4", "R5", "R6")}
    shadows = [o.name for o in c23.OPS if not o.uses]
    # R6: after a real move (the movers R2/R4/R5 break do not move for the tool) a nested re-binding of the name is flagged;
    # `shadow-subr` only mentions the inner name as a callee, which the checker never looks at (R1)
    real_movers = [m for m in movers if m not in ("take-keyword", "take-method", "rebind-block")] + ["rebind-other"]
    for sc in c23.SCOPES:
        for m in movers:
            for u in ("push", "index", "method-get"):
                if legal([m, u], sc):
                    exp["R1"].add(f"missed:{m}->{u}:{sc}")
            for u in ("take-keyword", "show-keyword"):
                if legal([m, u], sc):
                    exp["R2"].add(f"missed:{m}->{u}:{sc}")
        for m in real_movers:
            for sh in shadows:
                if sh != "shadow-subr" and legal([m, sh] if m != "rebind-other" else [sh], sc):
                    exp["R6"].add(f"spurious-move-error:{m}->{sh}:{sc}")
        for u in users:
            if u == "in-list-twice" or u in UNCHECKED or u == "shadow-subr":
                continue  # `[v, v]` is rejected by its own second mention whatever happened before
            for mover, root in (("take-keyword", "R2"), ("take-method", "R4"), ("rebind-block", "R5")):
                if legal([mover, u], sc) and u not in shadows:  # a shadowing statement is never a use
                    exp[root].add(f"missed:{mover}->{u}:{sc}")
            for prior, root in (("show-varargs", "R3"), ("show-method-second", "R4")):
                if legal([prior, u], sc):
                    exp[root].add(f"spurious-move-error:{prior}->{u}:{sc}")
    return exp


def main():
    exp = keys()
    findings = [
        {"property": "C23", "name": "call-receiver-not-checked", "keys": sorted(exp["R1"]),
         "witness": "v = ![1]\nw = v\nv.push! 1\nx = v[0]\ny = v.get 0   # erg check: no MoveError; `print! v` in the same place is rejected",
         "what": "the ownership checker never visits the receiver (call.obj) of a call: after `v` was moved (by any of the moving operations) `v.push! 1`, `v[0]` and `v.get 0` are accepted in every scope (OwnershipChecker::check_expr, Expr::Call arm). No small safe repair: visiting the receiver / re-pairing the arguments (notes/proposed-fixes/C23-call-arguments-ownership.patch.rejected) makes tests/should_ok/mangling.er fail - `while! do! flg, do!: ... flg.invert!()`: the one-expression lambda body `flg` is moved (check_block, chunk=false), which is only harmless as long as receivers are never checked; a repair has to settle what a block value moves (R5) first"},
        {"property": "C23", "name": "keyword-argument-for-non-default-parameter-not-checked", "keys": sorted(exp["R2"]),
         "witness": PRE + "v = ![1]\nt = takef a:=v\nprint! v   # accepted: `a:=v` did not move v;  and  w = v / t = takef a:=v / t = show a:=v  are accepted after the move",
         "what": "keyword arguments are split by the number of DEFAULT parameters before they are looked up by name, so a keyword argument naming a non-default parameter is neither moved (declared List!(Int, _)) nor checked for an earlier move; the repair tried together with the receiver check was rejected (see call-receiver-not-checked)"},
        {"property": "C23", "name": "variable-arguments-parameter-always-owned", "keys": sorted(exp["R3"]),
         "witness": PRE + "v = ![1]\nt = showall v\nprint! v   # MoveError: v was moved in line 2, although showall declares *a: List(Int, _) (immutable)",
         "what": "SubrType::args_ownership gives a `*args` parameter Ownership::Owned unless its type is Ref/RefMut, whatever the declared element type: passing a mutable value for an immutable variable-arguments parameter moves it and every later use is rejected (spurious MoveError); the repair tried together with the receiver check was rejected (see call-receiver-not-checked)"},
        {"property": "C23", "name": "method-call-arguments-paired-with-self", "keys": sorted(exp["R4"]),
         "witness": PRE + "c = C.new {x = 1}\nv = ![1]\nt = c.eat v\nprint! v   # accepted (v paired with the ownership of self)\nw = ![1]\nu = c.mix ![0], w\nprint! w   # MoveError although b: List(Int, _) is immutable (w paired with the ownership of a)",
         "what": "for a method call the positional arguments are zipped with args_ownership().non_defaults, which still starts with `self`: each argument gets the ownership of the parameter before it, so a declared-mutable first parameter does not move and an immutable parameter after a mutable one does; the repair tried together with the receiver check was rejected (see call-receiver-not-checked)"},
        {"property": "C23", "name": "block-value-not-moved", "keys": sorted(exp["R5"]),
         "witness": "v = ![1]\nw =\n    k = 1\n    v\nw.push! 2\nprint! v   # accepted, prints [1, 2]: v and w alias",
         "what": "check_block visits every chunk of a multi-statement block with chunk=true, including the last one (the block's value), so binding a variable to the value of a block that ends in `v` does not move `v` (a one-expression block does); no repair proposed: moving the last expression of every block also changes closures/procedure bodies that end in an outer variable"},
        {"property": "C23", "name": "shadowing-binding-of-a-moved-name-rejected", "keys": sorted(exp["R6"]),
         "witness": "v = ![1]\nw = v\ng v: Int = v + 1\nprint! g(2), w   # erg check: MoveError: v was moved in line 2, pointing at `v + 1` inside g; same for h() = / v = 1 / v",
         "what": "check_if_dropped looks a name up in the dropped sets of every enclosing scope without asking whether an inner scope has bound the name again: after an outer `v` was moved, a subroutine whose parameter or local variable is also called `v` gets a MoveError on its own uses of the inner `v`, although the program never uses the moved variable (last clause of the property). No small repair recorded: erasing the outer record when the name is re-bound (the obvious fix) loses the move for later uses of the outer variable - the scopes need a per-scope shadow set"},
    ]
    path = os.path.join(HERE, "known_findings.d", "C23.json")
    with open(path, "w") as f:
        json.dump({"findings": findings, "fixed": []}, f, indent=1, ensure_ascii=False)
    print({f["name"]: len(f["keys"]) for f in findings})
    if len(sys.argv) > 1:  # compare with a dump
        obs = set(json.load(open(sys.argv[1])))
        allexp = set().union(*exp.values())
        print("observed but not listed:", sorted(obs - allexp)[:20], "listed but not observed:", len(allexp - obs))


if __name__ == "__main__":
    main()
