#!/usr/bin/env python3
"""Files a confirmed seeded change under /verif/seeded/<name>/:
   tools/accept_seed.py <id> <patch file name> <demo dir name> <meta file name> <mutant log> [name]
copies patch.diff, the demonstration and meta.json (augmented with the maintainer's confirmation from
confirm-<patch>.json and with what the checks reported, from the mutant_run log)."""
import json, os, shutil, sys
pid, patch, demo, meta, mlog = sys.argv[1:6]
name = sys.argv[6] if len(sys.argv) > 6 else pid
src = f"/tmp/seed/{pid}/out"
dst = f"/verif/seeded/{name}"
conf = json.load(open(f"{src}/confirm-{patch}.json"))
if conf["verdict"] != "confirmed":
    sys.exit(f"not confirmed: {conf}")
shutil.rmtree(dst, ignore_errors=True)
os.makedirs(dst)
shutil.copy(f"{src}/{patch}", f"{dst}/patch.diff")
shutil.copytree(f"{src}/{demo}", f"{dst}/demo", ignore=shutil.ignore_patterns("target", "*.o", "__pycache__"))
m = json.load(open(f"{src}/{meta}"))
log = open(mlog).read().splitlines()
m["property"] = pid
m["confirmed_by_maintainer"] = {k: conf[k] for k in ("suite_summary", "suite_failed_first_run", "suite_still_failing_when_rerun_alone", "demo_with_change_rc", "demo_without_change_rc", "verdict")}
m["confirmed_by_maintainer"]["how"] = "tools/confirm_seed.sh in the agent's scratch worktree: build + pinned 230-test suite + demo with the change, git apply -R + build + demo without it"
m["checks_run"] = {"how": "tools/mutant_run.sh (scratch worktree of /repo HEAD + patch, copy of /verif re-pointed at it), quick tier", "result": [l for l in log if l.startswith("== ")],
                   "first_reports": [l.strip() for l in log if "new violation class" in l][:4]}
m["detected"] = any(" rc=1 " in l for l in log if l.startswith("== "))
json.dump(m, open(f"{dst}/meta.json", "w"), indent=1, ensure_ascii=False)
print(dst, "detected" if m["detected"] else "MISSED")
